(* Correspondence glue for the frame codec: parse a case, run the model, print the result. *)
From PV Require Import Common.Wire Frame.Model.

Definition parse_frame (l : list N) : option (frame * list N) :=
  match l with
  | 0 :: id :: rwnd :: port :: r =>
      match parse_lp r with Some (h, r') => Some (Connect id rwnd port h, r') | None => None end
  | 1 :: id :: n :: r => Some (Acknowledge id n, r)
  | 2 :: id :: r => Some (Reset id, r)
  | 3 :: id :: r => Some (Finish id, r)
  | 4 :: id :: r =>
      match parse_lp r with Some (d, r') => Some (Push id d, r') | None => None end
  | 5 :: id :: bt :: port :: r =>
      match parse_lp r with Some (h, r') => Some (Bind id bt port h, r') | None => None end
  | 6 :: id :: port :: r =>
      match parse_lp r with
      | Some (h, r') =>
          match parse_lp r' with Some (d, r'') => Some (Datagram id port h d, r'') | None => None end
      | None => None
      end
  | _ => None
  end.

Definition put_err (e : err) : list N :=
  match e with
  | TooShort => [1; 0; 0]
  | BadVersion v => [1; 1; v]
  | BadOpCode v => [1; 2; v]
  | BadBindType v => [1; 3; v]
  end.

(* what the harness can observe of a decoded frame: opcode, id, payload length, re-encoding *)
Definition put_outcome (o : outcome) : list N :=
  match o with
  | Ok f => [0; opcode_num (frame_opcode f); frame_id f; payload_len f] ++
            match encode_checked f with Some e => put_lp e | None => [2] end
  | Err e => put_err e
  | Panic => [2]
  end.

Fixpoint parse_chunks (n : nat) (l : list N) : option (list (list N)) :=
  match n with
  | O => Some []
  | S n' => match parse_lp l with
            | Some (c, r) => match parse_chunks n' r with Some cs => Some (c :: cs) | None => None end
            | None => None
            end
  end.

(* kind 1: constructor-built frame: encoding, decode of the encoding, and the three
           equality flags (borrowed / owned Bytes / owned Vec decode == original)
   kind 2: arbitrary byte string: decode outcome
   kind 3: append_push_data (frame, extra)
   kind 4: vectored push (id, chunks): encoding, decode, flags (vectored == single,
           decoded == vectored) *)
Definition run_frame (c : list N) : list N :=
  match c with
  | 1 :: r =>
      match parse_frame r with
      | Some (f, []) =>
          match encode_checked f with
          | Some e => put_lp e ++ put_outcome (decode e) ++ [1; 1; 1]
          | None => [2]
          end
      | _ => MALFORMED
      end
  | 2 :: r => put_outcome (decode r)
  | 3 :: r =>
      match parse_frame r with
      | Some (f, r') =>
          match parse_lp r', encode_checked f with
          | Some (extra, []), Some e =>
              match append_push_data e extra with
              | Some e' => 0 :: put_lp e' ++ put_outcome (decode e')
              | None => [2]
              end
          | _, _ => MALFORMED
          end
      | None => MALFORMED
      end
  | 4 :: id :: n :: r =>
      match parse_chunks (N.to_nat n) r with
      | Some cs =>
          let e := encode (Push id (concat cs)) in
          put_lp e ++ put_outcome (decode e) ++ [1; 1]
      | None => MALFORMED
      end
  | _ => MALFORMED
  end.
