(* PROTOCOL.md "Data Framing" as a relation, written from the document's field tables
   (Frame Format figure and the per-opcode field lists), not from the encoder. *)
From PV Require Export Frame.Model.

(* header: one octet Ver(4 bits)|Op(4 bits), then Flow ID as 32-bit network order *)
Definition header (ver op id : N) : list N := [ver * 16 + op] ++ be32 id.

Inductive layout (ver : N) : frame -> list N -> Prop :=
| L_connect id rwnd port host :
    (* rwnd u32, target_port u16, target_host variable *)
    layout ver (Connect id rwnd port host) (header ver 0 id ++ be32 rwnd ++ be16 port ++ host)
| L_acknowledge id n :
    layout ver (Acknowledge id n) (header ver 1 id ++ be32 n)
| L_reset id : layout ver (Reset id) (header ver 2 id)
| L_finish id : layout ver (Finish id) (header ver 3 id)
| L_push id data : layout ver (Push id data) (header ver 4 id ++ data)
| L_bind id bt port host :
    (* bind_type u8 (1 = TCP, 3 = UDP), target_port u16, target_host variable *)
    layout ver (Bind id bt port host) (header ver 5 id ++ [bt] ++ be16 port ++ host)
| L_datagram id port host data :
    (* host_len u8, target_port u16, target_host (host_len octets), data *)
    layout ver (Datagram id port host data)
           (header ver 6 id ++ [len host] ++ be16 port ++ host ++ data).

(* A byte string is a valid PROTOCOL.md frame: current version nibble 7, or 0 as the
   documented lenient ("zero-filled") form, carrying a well-formed frame. *)
Definition valid_string (bs : list N) : Prop :=
  exists f, wf f /\ (layout 7 f bs \/ layout 0 f bs).

(* "minimum field lengths": Acknowledge, Reset and Finish have fixed-size bodies; octets
   after them have no meaning in PROTOCOL.md and are ignored by a lenient reader. *)
Definition fixed_size (f : frame) : Prop :=
  match f with Acknowledge _ _ | Reset _ | Finish _ => True | _ => False end.

Definition accepts (ver : N) (f : frame) (bs : list N) : Prop :=
  exists pre pad, layout ver f pre /\ bs = pre ++ pad /\ (pad = [] \/ fixed_size f).

Definition valid_string_lenient (bs : list N) : Prop :=
  exists f, wf f /\ (accepts 7 f bs \/ accepts 0 f bs).
