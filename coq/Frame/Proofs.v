From PV Require Import Frame.Model Frame.Spec.
From Coq Require Import ZifyBool ZifyN ZifyNat.

Lemma encode_is_layout f : layout 7 f (encode f).
Proof. destruct f; unfold encode, ver_opcode, PROTOCOL_VERSION_NUMBER; cbn [frame_opcode frame_id opcode_num];
  rewrite N.add_comm; constructor. Qed.

Lemma encode_len f : len (encode f) = 5 + payload_len f.
Proof.
  destruct f; unfold encode, be32, be16; cbn [payload_len app];
    rewrite ?len_cons, ?len_app, ?len_cons, ?len_app, ?len_nil; lia.
Qed.

Lemma opcode_of_hdr ver op : (ver = 7 \/ ver = 0) -> op < 7 ->
  opcode_of (ver * 16 + op) =
  inr (match op with 0 => OConnect | 1 => OAcknowledge | 2 => OReset | 3 => OFinish
                | 4 => OPush | 5 => OBind | _ => ODatagram end).
Proof.
  intros Hv Ho. unfold opcode_of, PROTOCOL_VERSION_NUMBER.
  assert (E1 : (ver * 16 + op) / 16 = ver) by lia.
  assert (E2 : (ver * 16 + op) mod 16 = op) by lia.
  rewrite E1, E2.
  assert (Hb : negb (ver =? 7) && negb (ver =? 0) = false) by (destruct Hv; subst; reflexivity).
  rewrite Hb.
  assert (C : op = 0 \/ op = 1 \/ op = 2 \/ op = 3 \/ op = 4 \/ op = 5 \/ op = 6) by lia.
  destruct C as [->|[->|[->|[->|[->|[->| ->]]]]]]; reflexivity.
Qed.

(* decoding the layout of a well-formed frame, either version nibble *)
Lemma get_u32_be32' n : n < 4294967296 -> get_u32 (be32 n) = Some (n, []).
Proof. intros. rewrite <- (app_nil_r (be32 n)). now apply get_u32_be32. Qed.
Lemma decode_layout ver f bs : (ver = 7 \/ ver = 0) -> wf f -> layout ver f bs -> decode bs = Ok f.
Proof.
  intros Hv [Hid Hwf] L. cbn [frame_id] in Hid.
  destruct L; unfold header; cbn [frame_id] in Hid;
  unfold decode;
  match goal with |- context [len ?l <? 1 + 4] =>
    assert (Hl : (len l <? 1 + 4) = false)
      by (unfold be32; cbn [app]; rewrite ?len_cons; lia); rewrite Hl end;
  cbn [app get_u8 bindo];
  (rewrite opcode_of_hdr by (auto; lia)); cbn match;
  rewrite ?(get_u32_be32 id) by exact Hid; rewrite ?(get_u32_be32' id) by exact Hid; cbn [bindo].
  - destruct Hwf as (Hr & Hp & Hh).
    assert (Hl2 : (len (be32 rwnd ++ be16 port ++ host) <? 4 + 2) = false)
      by (unfold be32, be16; cbn [app]; rewrite ?len_cons; lia).
    rewrite Hl2, get_u32_be32 by exact Hr. cbn [bindo].
    rewrite get_u16_be16 by exact Hp. reflexivity.
  - assert (Hl2 : (len (be32 n) <? 4) = false) by reflexivity.
    rewrite Hl2, get_u32_be32' by exact Hwf. reflexivity.
  - reflexivity.
  - reflexivity.
  - reflexivity.
  - destruct Hwf as (Hb & Hp & Hh).
    assert (Hl2 : (len (bt :: be16 port ++ host) <? 1 + 2) = false)
      by (unfold be16; cbn [app]; rewrite ?len_cons; lia).
    rewrite Hl2. cbn [app get_u8 bindo].
    assert (Eb : bind_type_of bt = inr bt) by (destruct Hb; subst; reflexivity).
    rewrite Eb, get_u16_be16 by exact Hp. reflexivity.
  - destruct Hwf as (Hp & Hl3 & Hh & Hd).
    assert (Hl2 : (len (len host :: be16 port ++ host ++ data) <? 1 + 2) = false)
      by (unfold be16; cbn [app]; rewrite ?len_cons; lia).
    rewrite Hl2. cbn [app get_u8 bindo].
    assert (Hl4 : (len (be16 port ++ host ++ data) <? len host + 2) = false)
      by (unfold be16; cbn [app]; rewrite ?len_cons, len_app; lia).
    rewrite Hl4, get_u16_be16 by exact Hp. cbn [bindo].
    rewrite split_to_app. reflexivity.
Qed.

Lemma decode_encode f : wf f -> decode (encode f) = Ok f.
Proof. intros H. apply (decode_layout 7); auto. apply encode_is_layout. Qed.

Lemma bindo_not_panic {A} (o : option A) k :
  o <> None -> (forall a, k a <> Panic) -> bindo o k <> Panic.
Proof. intros Ho Hk. destruct o; cbn; [apply Hk|congruence]. Qed.

Lemma get_u8_some c : 1 <= len c -> exists b r, c = b :: r /\ get_u8 c = Some (b, r).
Proof. destruct c as [|b r]; [rewrite len_nil; lia|]. eauto. Qed.
Lemma get_u16_some c : 2 <= len c -> exists a b r, c = a :: b :: r /\ get_u16 c = Some (a * 256 + b, r).
Proof. destruct c as [|a [|b r]]; rewrite ?len_cons, ?len_nil; try lia. eauto. Qed.
Lemma get_u32_some c : 4 <= len c ->
  exists a b c' d r, c = a :: b :: c' :: d :: r /\
    get_u32 c = Some (((a * 256 + b) * 256 + c') * 256 + d, r).
Proof.
  destruct c as [|a [|b [|c' [|d r]]]]; rewrite ?len_cons, ?len_nil; try lia.
  intros _. do 5 eexists. eauto.
Qed.

(* The full case analysis of the decoder on an arbitrary string, used for
   totality, the converse direction and the error characterisation. *)
Inductive body_case : opcode -> N -> list N -> outcome -> Prop :=
| BC_connect_short id r : len r < 6 -> body_case OConnect id r (Err TooShort)
| BC_connect id a b c d p q host :
    body_case OConnect id (a :: b :: c :: d :: p :: q :: host)
      (Ok (Connect id (((a * 256 + b) * 256 + c) * 256 + d) (p * 256 + q) host))
| BC_ack_short id r : len r < 4 -> body_case OAcknowledge id r (Err TooShort)
| BC_ack id a b c d rest :
    body_case OAcknowledge id (a :: b :: c :: d :: rest)
      (Ok (Acknowledge id (((a * 256 + b) * 256 + c) * 256 + d)))
| BC_reset id r : body_case OReset id r (Ok (Reset id))
| BC_finish id r : body_case OFinish id r (Ok (Finish id))
| BC_push id r : body_case OPush id r (Ok (Push id r))
| BC_bind_short id r : len r < 3 -> body_case OBind id r (Err TooShort)
| BC_bind_badtype id bt p q host e :
    bind_type_of bt = inl e -> body_case OBind id (bt :: p :: q :: host) (Err e)
| BC_bind id bt bt' p q host :
    bind_type_of bt = inr bt' ->
    body_case OBind id (bt :: p :: q :: host) (Ok (Bind id bt' (p * 256 + q) host))
| BC_dgram_short id r : len r < 3 -> body_case ODatagram id r (Err TooShort)
| BC_dgram_short2 id hl p q rest :
    len rest < hl -> body_case ODatagram id (hl :: p :: q :: rest) (Err TooShort)
| BC_dgram id p q host data :
    body_case ODatagram id (len host :: p :: q :: host ++ data)
      (Ok (Datagram id (p * 256 + q) host data)).

Inductive decode_case (bs : list N) : outcome -> Prop :=
| DC_short : len bs < 5 -> decode_case bs (Err TooShort)
| DC_hdr_err b0 a b c d r e :
    bs = b0 :: a :: b :: c :: d :: r -> opcode_of b0 = inl e -> decode_case bs (Err e)
| DC_body b0 a b c d r op o :
    bs = b0 :: a :: b :: c :: d :: r -> opcode_of b0 = inr op ->
    body_case op (((a * 256 + b) * 256 + c) * 256 + d) r o -> decode_case bs o.

Lemma decode_cases bs : decode_case bs (decode bs).
Proof.
  unfold decode.
  destruct (N.ltb_spec (len bs) (1 + 4)) as [Hs|Hs]; [apply DC_short; lia|].
  destruct bs as [|b0 c0]; [rewrite len_nil in Hs; lia|].
  rewrite len_cons in Hs. cbn [get_u8 bindo].
  destruct (get_u32_some c0) as (a & b & c & d & r & -> & E); [lia|].
  destruct (opcode_of b0) as [e|op] eqn:Eop; [eapply DC_hdr_err; eauto|].
  rewrite E. cbn [bindo].
  eapply DC_body; eauto.
  set (id := ((a * 256 + b) * 256 + c) * 256 + d). clearbody id. clear E Hs Eop.
  destruct op.
  - destruct (N.ltb_spec (len r) (4 + 2)) as [H|H]; [apply BC_connect_short; lia|].
    destruct (get_u32_some r) as (a1 & b1 & c1 & d1 & r1 & -> & E1); [lia|].
    rewrite E1. cbn [bindo]. rewrite !len_cons in H.
    destruct (get_u16_some r1) as (p & q & host & -> & E2); [lia|].
    rewrite E2. cbn [bindo]. constructor.
  - destruct (N.ltb_spec (len r) 4) as [H|H]; [apply BC_ack_short; lia|].
    destruct (get_u32_some r) as (a1 & b1 & c1 & d1 & r1 & -> & E1); [lia|].
    rewrite E1. cbn [bindo]. constructor.
  - constructor.
  - constructor.
  - constructor.
  - destruct (N.ltb_spec (len r) (1 + 2)) as [H|H]; [apply BC_bind_short; lia|].
    destruct r as [|bt r1]; [rewrite len_nil in H; lia|]. rewrite len_cons in H.
    cbn [get_u8 bindo].
    destruct (get_u16_some r1) as (p & q & host & -> & E2); [lia|].
    destruct (bind_type_of bt) as [e|bt'] eqn:Eb.
    + eapply BC_bind_badtype; eauto.
    + rewrite E2. cbn [bindo]. apply BC_bind; auto.
  - destruct (N.ltb_spec (len r) (1 + 2)) as [H|H]; [apply BC_dgram_short; lia|].
    destruct r as [|hl r1]; [rewrite len_nil in H; lia|]. rewrite len_cons in H.
    cbn [get_u8 bindo].
    destruct (get_u16_some r1) as (p & q & rest & -> & E2); [lia|].
    destruct (N.ltb_spec (len (p :: q :: rest)) (hl + 2)) as [H2|H2].
    + apply BC_dgram_short2. rewrite !len_cons in H2. lia.
    + rewrite E2. cbn [bindo]. rewrite !len_cons in H2.
      unfold split_to. destruct (N.ltb_spec (len rest) hl) as [H3|H3]; [lia|].
      cbn [bindo].
      assert (Hhl : hl = len (firstn (N.to_nat hl) rest)).
      { unfold len in *. rewrite firstn_length. lia. }
      rewrite Hhl at 1.
      rewrite <- (firstn_skipn (N.to_nat hl) rest) at 2.
      constructor.
Qed.

Lemma decode_never_panics bs : decode bs <> Panic.
Proof.
  pose proof (decode_cases bs) as H. intros E. rewrite E in H.
  inversion H as [| |? ? ? ? ? ? ? ? ? ? HB]. inversion HB.
Qed.

Lemma opcode_of_inr b op : b < 256 -> opcode_of b = inr op ->
  (b = 7 * 16 + opcode_num op \/ b = 0 * 16 + opcode_num op).
Proof.
  unfold opcode_of, PROTOCOL_VERSION_NUMBER. intros Hb.
  destruct (N.eqb_spec (b / 16) 7) as [E7|E7]; cbn [negb andb].
  - assert (C : b mod 16 = 0 \/ b mod 16 = 1 \/ b mod 16 = 2 \/ b mod 16 = 3 \/ b mod 16 = 4 \/
               b mod 16 = 5 \/ b mod 16 = 6 \/ 7 <= b mod 16) by lia.
    destruct C as [C|[C|[C|[C|[C|[C|[C|C]]]]]]]; try rewrite C;
      try (intros E; inversion E; subst; cbn [opcode_num]; left; lia).
    destruct (b mod 16) as [|p] eqn:Em; [lia|].
    do 4 (destruct p as [p|p|]; try lia; try discriminate).
  - destruct (N.eqb_spec (b / 16) 0) as [E0|E0]; cbn [negb]; [|discriminate].
    assert (C : b mod 16 = 0 \/ b mod 16 = 1 \/ b mod 16 = 2 \/ b mod 16 = 3 \/ b mod 16 = 4 \/
               b mod 16 = 5 \/ b mod 16 = 6 \/ 7 <= b mod 16) by lia.
    destruct C as [C|[C|[C|[C|[C|[C|[C|C]]]]]]]; try rewrite C;
      try (intros E; inversion E; subst; cbn [opcode_num]; right; lia).
    destruct (b mod 16) as [|p] eqn:Em; [lia|].
    do 4 (destruct p as [p|p|]; try lia; try discriminate).
Qed.

Lemma bind_type_of_inr bt bt' : bind_type_of bt = inr bt' -> bt' = bt /\ (bt = 1 \/ bt = 3).
Proof.
  unfold bind_type_of. destruct bt as [|p]; [discriminate|].
  destruct p as [p|p|]; try discriminate.
  - destruct p; try discriminate. intros E; inversion E; auto.
  - intros E; inversion E; auto.
Qed.

Lemma layout_accepts ver f bs : layout ver f bs -> accepts ver f bs.
Proof. intros L. exists bs, []. rewrite app_nil_r. auto. Qed.

Lemma decode_pad ver f pre pad : (ver = 7 \/ ver = 0) -> wf f -> layout ver f pre -> fixed_size f ->
  decode (pre ++ pad) = Ok f.
Proof.
  intros Hv [Hid Hwf] L Hf. cbn [frame_id] in Hid.
  destruct L; cbn [fixed_size] in Hf; try contradiction; unfold header; cbn [frame_id] in Hid;
  unfold decode;
  match goal with |- context [len ?l <? 1 + 4] =>
    assert (Hl : (len l <? 1 + 4) = false)
      by (unfold be32; cbn [app]; rewrite ?len_cons; lia); rewrite Hl end;
  cbn [app get_u8 bindo];
  (rewrite opcode_of_hdr by (auto; lia)); cbn match;
  rewrite <- ?app_assoc; rewrite (get_u32_be32 id) by exact Hid; cbn [bindo]; try reflexivity.
  assert (Hl2 : (len (be32 n ++ pad) <? 4) = false)
    by (unfold be32; cbn [app]; rewrite ?len_cons; lia).
  rewrite Hl2, get_u32_be32 by exact Hwf. reflexivity.
Qed.

Lemma decode_accepts ver f bs : (ver = 7 \/ ver = 0) -> wf f -> accepts ver f bs -> decode bs = Ok f.
Proof.
  intros Hv Hw (pre & pad & L & -> & [->|Hf]).
  - rewrite app_nil_r. eapply decode_layout; eauto.
  - eapply decode_pad; eauto.
Qed.

(* converse: a successful decode means the string is (an accepted form of) the layout of
   a well-formed frame *)
Lemma decode_ok_accepts bs f : bytes_ok bs -> decode bs = Ok f ->
  wf f /\ (accepts 7 f bs \/ accepts 0 f bs).
Proof.
  intros Hb E. pose proof (decode_cases bs) as H. rewrite E in H.
  inversion H as [| |b0 a b c d r op o Ebs Eop HB]; subst.
  unfold bytes_ok in Hb.
  apply Forall_cons_iff in Hb as [Hb0 Hb]. apply Forall_cons_iff in Hb as [Ha Hb].
  apply Forall_cons_iff in Hb as [Hb1 Hb]. apply Forall_cons_iff in Hb as [Hc Hb].
  apply Forall_cons_iff in Hb as [Hd Hr]. unfold byte_ok in *.
  destruct (be32_of_bytes a b c d) as [Eid Hid]; auto.
  apply opcode_of_inr in Eop; [|exact Hb0].
  set (id := ((a * 256 + b) * 256 + c) * 256 + d) in *.
  assert (Hlay : forall ver body, b0 = ver * 16 + opcode_num op ->
            b0 :: a :: b :: c :: d :: body = header ver (opcode_num op) id ++ body).
  { intros ver body ->. unfold header. rewrite Eid. reflexivity. }
  assert (Hacc : forall f pre pad,
     (forall ver, layout ver f (header ver (opcode_num op) id ++ pre)) ->
     r = pre ++ pad -> (pad = [] \/ fixed_size f) ->
     accepts 7 f (b0 :: a :: b :: c :: d :: r) \/ accepts 0 f (b0 :: a :: b :: c :: d :: r)).
  { intros f0 pre pad HL -> Hp.
    destruct Eop as [Eop|Eop]; [left|right]; rewrite (Hlay _ _ Eop);
      [exists (header 7 (opcode_num op) id ++ pre), pad
      |exists (header 0 (opcode_num op) id ++ pre), pad]; rewrite <- app_assoc; auto. }
  inversion HB; subst; cbn [opcode_num] in *.
  - (* connect *)
    repeat match goal with H : Forall _ (_ :: _) |- _ => apply Forall_cons_iff in H as [? H] end.
    match goal with |- wf (Connect _ (((?a1 * 256 + ?b1) * 256 + ?c1) * 256 + ?d1) (?p * 256 + ?q) ?h) /\ _ =>
      destruct (be32_of_bytes a1 b1 c1 d1) as [Er Hrw]; auto;
      destruct (be16_of_bytes p q) as [Ep Hp]; auto;
      assert (Ebody : a1 :: b1 :: c1 :: d1 :: p :: q :: h =
                      (be32 (((a1 * 256 + b1) * 256 + c1) * 256 + d1) ++ be16 (p * 256 + q) ++ h) ++ [])
        by (rewrite Er, Ep, app_nil_r; reflexivity)
    end.
    split; [repeat split; auto|].
    eapply Hacc; [|exact Ebody|auto]. intros; constructor.
  - (* acknowledge *)
    repeat match goal with H : Forall _ (_ :: _) |- _ => apply Forall_cons_iff in H as [? H] end.
    match goal with |- wf (Acknowledge _ (((?a1 * 256 + ?b1) * 256 + ?c1) * 256 + ?d1)) /\ _ =>
      destruct (be32_of_bytes a1 b1 c1 d1) as [Er Hrw]; auto;
      assert (Ebody : a1 :: b1 :: c1 :: d1 :: rest =
                      be32 (((a1 * 256 + b1) * 256 + c1) * 256 + d1) ++ rest)
        by (rewrite Er; reflexivity)
    end.
    split; [repeat split; auto|].
    eapply Hacc; [|exact Ebody|right; exact I]. intros; constructor.
  - split; [repeat split; auto|].
    eapply (Hacc (Reset id) [] r); [|reflexivity|right; exact I].
    intros; rewrite app_nil_r; constructor.
  - split; [repeat split; auto|].
    eapply (Hacc (Finish id) [] r); [|reflexivity|right; exact I].
    intros; rewrite app_nil_r; constructor.
  - split; [repeat split; auto|].
    eapply (Hacc (Push id r) r []); [|now rewrite app_nil_r|auto].
    intros; constructor.
  - (* bind *)
    repeat match goal with H : Forall _ (_ :: _) |- _ => apply Forall_cons_iff in H as [? H] end.
    match goal with Hbt : bind_type_of _ = inr _ |- _ => apply bind_type_of_inr in Hbt as [-> Hbt] end.
    match goal with |- wf (Bind _ ?bt (?p * 256 + ?q) ?h) /\ _ =>
      destruct (be16_of_bytes p q) as [Ep Hp]; auto;
      assert (Ebody : bt :: p :: q :: h = ([bt] ++ be16 (p * 256 + q) ++ h) ++ [])
        by (rewrite Ep, app_nil_r; reflexivity)
    end.
    split; [repeat split; auto|].
    eapply Hacc; [|exact Ebody|auto]. intros; constructor.
  - (* datagram *)
    repeat match goal with H : Forall _ (_ :: _) |- _ => apply Forall_cons_iff in H as [? H] end.
    match goal with H : Forall _ (_ ++ _) |- _ => apply Forall_app in H as [Hh Hd'] end.
    match goal with |- wf (Datagram _ (?p * 256 + ?q) ?h ?dt) /\ _ =>
      destruct (be16_of_bytes p q) as [Ep Hp]; auto;
      assert (Ebody : len h :: p :: q :: h ++ dt = ([len h] ++ be16 (p * 256 + q) ++ h ++ dt) ++ [])
        by (rewrite Ep, app_nil_r; reflexivity)
    end.
    split; [repeat split; auto; lia|].
    eapply Hacc; [|exact Ebody|auto]. intros; constructor.
Qed.

Theorem decode_iff_valid bs f : bytes_ok bs ->
  (decode bs = Ok f <-> wf f /\ (accepts 7 f bs \/ accepts 0 f bs)).
Proof.
  intros Hb. split; [now apply decode_ok_accepts|].
  intros [Hw [A|A]]; [apply (decode_accepts 7)|apply (decode_accepts 0)]; auto.
Qed.

Theorem decode_succeeds_iff_valid bs : bytes_ok bs ->
  ((exists f, decode bs = Ok f) <-> valid_string_lenient bs).
Proof.
  intros Hb. split.
  - intros [f E]. exists f. now apply decode_ok_accepts.
  - intros [f [Hw A]]. exists f. now apply decode_iff_valid.
Qed.

(* what an unsuccessful decode reports: the first failing check *)
Theorem decode_error_complete bs e : decode bs = Err e ->
  (e = TooShort /\ len bs < 5) \/
  (exists b0 r, bs = b0 :: r /\ 5 <= len bs /\
     ((opcode_of b0 = inl e) \/
      (exists op, opcode_of b0 = inr op /\
         ((e = TooShort /\ match op with
                           | OConnect => len bs < 11 | OAcknowledge => len bs < 9
                           | OBind => len bs < 8
                           | ODatagram => len bs < 8 \/ (exists hl, nth_error bs 5 = Some hl /\ len bs < 8 + hl)
                           | _ => False end) \/
          (op = OBind /\ exists bt, nth_error bs 5 = Some bt /\ bind_type_of bt = inl e))))).
Proof.
  intros E. pose proof (decode_cases bs) as H. rewrite E in H.
  inversion H as [Hs| b0 a b c d r e' Ebs Eop |b0 a b c d r op o Ebs Eop HB]; subst.
  - left; auto.
  - right. do 2 eexists. split; [reflexivity|]. rewrite !len_cons. split; [lia|]. left; auto.
  - right. do 2 eexists. split; [reflexivity|]. rewrite !len_cons. split; [lia|]. right.
    exists op. split; [auto|].
    inversion HB; subst; rewrite ?len_cons in *.
    + left. split; auto. lia.
    + left. split; auto. lia.
    + left. split; auto. lia.
    + right. split; auto. eexists. split; [reflexivity|auto].
    + left. split; auto. left. lia.
    + left. split; auto. right. eexists. split; [reflexivity|]. lia.
Qed.

Lemma append_push id d extra :
  append_push_data (encode (Push id d)) extra = Some (encode (Push id (d ++ extra))).
Proof.
  unfold append_push_data, encode. cbn [frame_opcode frame_id app].
  unfold ver_opcode, opcode_num, PROTOCOL_VERSION_NUMBER.
  replace (opcode_of ((4 + 7 * 16) mod 16)) with (@inr err opcode OPush) by reflexivity.
  cbn match. f_equal.
Qed.

Lemma append_push_other f extra : wf f -> frame_opcode f <> OPush ->
  append_push_data (encode f) extra = None.
Proof.
  intros _ Hn. unfold append_push_data, encode. cbn [app].
  destruct f; cbn [frame_opcode] in *; try congruence; reflexivity.
Qed.

Lemma encode_checked_some f : wf f -> encode_checked f = Some (encode f).
Proof.
  destruct f; try reflexivity. intros (_ & _ & Hl & _). unfold encode_checked.
  destruct (N.ltb_spec 255 (len host)); [lia|reflexivity].
Qed.

Lemma encode_bytes_ok f : wf f -> bytes_ok (encode f).
Proof.
  intros [Hid Hwf]. unfold encode. apply bytes_ok_app. split.
  - repeat constructor. unfold byte_ok, ver_opcode, PROTOCOL_VERSION_NUMBER.
    destruct f; cbn [frame_opcode opcode_num]; lia.
  - apply bytes_ok_app. split; [apply be32_ok|].
    destruct f.
    + destruct Hwf as (_ & _ & Hh). repeat (apply bytes_ok_app; split); auto using be32_ok, be16_ok.
    + apply be32_ok.
    + constructor.
    + constructor.
    + exact Hwf.
    + destruct Hwf as (Hb & _ & Hh). repeat (apply bytes_ok_app; split); auto using be16_ok.
      repeat constructor. unfold byte_ok. destruct Hb; subst; lia.
    + destruct Hwf as (_ & Hl & Hh & Hd). repeat (apply bytes_ok_app; split); auto using be16_ok.
      repeat constructor. unfold byte_ok. lia.
Qed.
