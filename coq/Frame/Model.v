(* Executable model of penguin-mux/src/frame.rs (encoder, decoder, append_push_data).
   Transcribed from the Rust: same guards, same constants, same order.
   [Panic] is an explicit outcome: the `bytes` cursor primitives are partial. *)
From PV Require Export Common.Bytes.

Inductive frame :=
| Connect (id rwnd port : N) (host : list N)
| Acknowledge (id n : N)
| Reset (id : N)
| Finish (id : N)
| Push (id : N) (data : list N)
| Bind (id bt port : N) (host : list N)
| Datagram (id port : N) (host data : list N).

Inductive opcode := OConnect | OAcknowledge | OReset | OFinish | OPush | OBind | ODatagram.

Inductive err := TooShort | BadVersion (v : N) | BadOpCode (v : N) | BadBindType (v : N).

Inductive outcome := Ok (f : frame) | Err (e : err) | Panic.

Definition PROTOCOL_VERSION_NUMBER : N := 7.

Definition opcode_num (o : opcode) : N :=
  match o with
  | OConnect => 0 | OAcknowledge => 1 | OReset => 2 | OFinish => 3
  | OPush => 4 | OBind => 5 | ODatagram => 6
  end.

Definition frame_opcode (f : frame) : opcode :=
  match f with
  | Connect _ _ _ _ => OConnect | Acknowledge _ _ => OAcknowledge
  | Reset _ => OReset | Finish _ => OFinish | Push _ _ => OPush
  | Bind _ _ _ _ => OBind | Datagram _ _ _ _ => ODatagram
  end.

Definition frame_id (f : frame) : N :=
  match f with
  | Connect i _ _ _ | Acknowledge i _ | Reset i | Finish i | Push i _
  | Bind i _ _ _ | Datagram i _ _ _ => i
  end.

(* Payload::len *)
Definition payload_len (f : frame) : N :=
  match f with
  | Connect _ _ _ h => 4 + 2 + len h
  | Acknowledge _ _ => 4
  | Reset _ | Finish _ => 0
  | Push _ d => len d
  | Bind _ _ _ h => 1 + 2 + len h
  | Datagram _ _ h d => 1 + 2 + len h + len d
  end.

(* `OpCode as u8`: opcode | version << 4 *)
Definition ver_opcode (o : opcode) : N := opcode_num o + PROTOCOL_VERSION_NUMBER * 16.

(* From<&Frame> for Vec<u8>.  The only panic is the `expect` on the datagram host
   length; it is modelled by [encode_checked]. *)
Definition encode (f : frame) : list N :=
  [ver_opcode (frame_opcode f)] ++ be32 (frame_id f) ++
  match f with
  | Connect _ rwnd port host => be32 rwnd ++ be16 port ++ host
  | Acknowledge _ n => be32 n
  | Reset _ | Finish _ => []
  | Push _ d => d
  | Bind _ bt port host => [bt] ++ be16 port ++ host
  | Datagram _ port host d => [len host] ++ be16 port ++ host ++ d
  end.

Definition encode_checked (f : frame) : option (list N) :=
  match f with
  | Datagram _ _ host _ => if 255 <? len host then None else Some (encode f)
  | _ => Some (encode f)
  end.

(* OpCode::try_from(u8) *)
Definition opcode_of (b : N) : err + opcode :=
  if negb (b / 16 =? PROTOCOL_VERSION_NUMBER) && negb (b / 16 =? 0) then inl (BadVersion (b / 16))
  else match b mod 16 with
       | 0 => inr OConnect | 1 => inr OAcknowledge | 2 => inr OReset | 3 => inr OFinish
       | 4 => inr OPush | 5 => inr OBind | 6 => inr ODatagram
       | other => inl (BadOpCode other)
       end.

(* BindType::try_from(u8) *)
Definition bind_type_of (b : N) : err + N :=
  match b with 1 => inr 1 | 3 => inr 3 | other => inl (BadBindType other) end.

Definition bindo {A} (o : option A) (k : A -> outcome) : outcome :=
  match o with Some a => k a | None => Panic end.

(* TryFrom<CowBytes> for Frame; each `check_remaining!` is an explicit test *)
Definition decode (bs : list N) : outcome :=
  if len bs <? 1 + 4 then Err TooShort else
  bindo (get_u8 bs) (fun '(b0, c) =>
  match opcode_of b0 with
  | inl e => Err e
  | inr op =>
    bindo (get_u32 c) (fun '(id, c) =>
    match op with
    | OConnect =>
        if len c <? 4 + 2 then Err TooShort else
        bindo (get_u32 c) (fun '(rwnd, c) =>
        bindo (get_u16 c) (fun '(port, c) => Ok (Connect id rwnd port c)))
    | OAcknowledge =>
        if len c <? 4 then Err TooShort else
        bindo (get_u32 c) (fun '(n, _) => Ok (Acknowledge id n))
    | OReset => Ok (Reset id)
    | OFinish => Ok (Finish id)
    | OPush => Ok (Push id c)
    | OBind =>
        if len c <? 1 + 2 then Err TooShort else
        bindo (get_u8 c) (fun '(bt, c) =>
        match bind_type_of bt with
        | inl e => Err e
        | inr bt => bindo (get_u16 c) (fun '(port, c) => Ok (Bind id bt port c))
        end)
    | ODatagram =>
        if len c <? 1 + 2 then Err TooShort else
        bindo (get_u8 c) (fun '(host_len, c) =>
        if len c <? host_len + 2 then Err TooShort else
        bindo (get_u16 c) (fun '(port, c) =>
        bindo (split_to host_len c) (fun '(host, c) => Ok (Datagram id port host c))))
    end)
  end).

(* append_push_data: [None] = panic (index out of range, not a valid opcode, not Push) *)
Definition append_push_data (fr data : list N) : option (list N) :=
  match fr with
  | [] => None
  | b0 :: _ =>
    match opcode_of (b0 mod 16) with
    | inr OPush => Some (fr ++ data)
    | _ => None
    end
  end.

(* Well-formed frames: the values the public constructors can carry *)
Definition wf (f : frame) : Prop :=
  frame_id f < 4294967296 /\
  match f with
  | Connect _ rwnd port host => rwnd < 4294967296 /\ port < 65536 /\ bytes_ok host
  | Acknowledge _ n => n < 4294967296
  | Reset _ | Finish _ => True
  | Push _ d => bytes_ok d
  | Bind _ bt port host => (bt = 1 \/ bt = 3) /\ port < 65536 /\ bytes_ok host
  | Datagram _ port host d => port < 65536 /\ len host <= 255 /\ bytes_ok host /\ bytes_ok d
  end.
