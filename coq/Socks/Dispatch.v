(* Correspondence glue for penguin-socks. *)
From PV Require Import Common.Wire Socks.Model.

Definition put_addr (a : addr) : list N :=
  match a with
  | AV4 a b c d => [1; a; b; c; d] ++ put_lp (render_v4 a b c d)
  | ADom n => [3] ++ put_lp n
  | AV6 o => [4] ++ o
  end.

Definition put_serr (e : serr) : list N :=
  match e with
  | ESocksVersion v => [1; v]
  | EAddressType t => [2; t]
  | EParseAssociate => [3; 0]
  | EFragmentedUdp => [4; 0]
  | EUnknownAddressType t => [5; t]
  end.

Definition put_req (total : N) (r : res (N * addr * N)) : list N :=
  match r with
  | Done (cmd, a, port) rest => [0; cmd; port] ++ put_addr a ++ [total - len rest]
  | NeedMore => [1; 0]
  | Fail e w => [1] ++ put_serr e ++ put_lp w
  end.

Definition parse_sockaddr (l : list N) : option (addr * list N) :=
  match l with
  | 1 :: a :: b :: c :: d :: r => Some (AV4 a b c d, r)
  | 4 :: r => if len r <? 16 then None else Some (AV6 (firstn 16 r), skipn 16 r)
  | _ => None
  end.

Definition run_socks (c : list N) : list N :=
  match c with
  | 1 :: _mode :: i => put_req (len i) (v4_read_request i)
  | 2 :: _mode :: i => put_req (len i) (v5_read_request i)
  | 3 :: _mode :: i =>
      match v5_read_auth_methods i with
      | Done ms rest => [0] ++ put_lp ms ++ [len i - len rest]
      | NeedMore => [1; 0]
      | Fail e w => [1] ++ put_serr e ++ put_lp w
      end
  | 4 :: 0 :: code :: [] => put_lp (v4_write_response code)
  | 4 :: 1 :: m :: [] => put_lp (v5_write_auth_method m)
  | 4 :: 2 :: code :: r =>
      match parse_sockaddr r with
      | Some (a, [port]) => put_lp (v5_write_response code a port)
      | _ => MALFORMED
      end
  | 4 :: 3 :: code :: [] => put_lp (v5_write_response_unspecified code)
  | 5 :: buf =>
      match parse_udp_relay_header buf with
      | UOk a port data => [0] ++ put_addr a ++ [port] ++ put_lp data
      | UErr e => [1] ++ put_serr e
      | UPanic => [2]
      end
  | 6 :: r =>
      match parse_sockaddr r with
      | Some (a, port :: data) => put_lp (udp_relay_response a port data) ++ [1]
      | _ => MALFORMED
      end
  | 7 :: i => match client_dialog i with Some o => put_lp o | None => MALFORMED end
  | 8 :: i => match client_connect i with Some (reply, h, port) => put_lp reply ++ put_lp h ++ [port] | None => MALFORMED end
  | _ => MALFORMED
  end.
