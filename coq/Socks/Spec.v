(* The message formats of RFC 1928 (SOCKS5) and of SOCKS4 / SOCKS4a, written from the
   documents' field tables; and a conforming client's parser of the UDP request header
   (RFC 1928 section 7). *)
From PV Require Export Socks.Model.

Definition octets_ok (n : N) (o : list N) : Prop := len o = n /\ bytes_ok o.

Definition addr_ok (a : addr) : Prop :=
  match a with
  | AV4 a b c d => a < 256 /\ b < 256 /\ c < 256 /\ d < 256
  | ADom name => len name <= 255 /\ bytes_ok name
  | AV6 o => octets_ok 16 o
  end.

(* RFC 1928 section 5: ATYP, then the address in the form ATYP selects *)
Definition enc_addr (a : addr) : list N :=
  match a with
  | AV4 a b c d => [1; a; b; c; d]                 (* X'01': 4 octets *)
  | ADom name => [3; len name] ++ name            (* X'03': 1 length octet, then the name *)
  | AV6 o => [4] ++ o                              (* X'04': 16 octets *)
  end.

(* section 4: VER CMD RSV ATYP DST.ADDR DST.PORT *)
Definition enc_v5_request (cmd : N) (a : addr) (port : N) : list N :=
  [5; cmd; 0] ++ enc_addr a ++ be16 port.

(* section 6: VER REP RSV ATYP BND.ADDR BND.PORT *)
Definition enc_v5_reply (rep : N) (a : addr) (port : N) : list N :=
  [5; rep; 0] ++ enc_addr a ++ be16 port.

(* section 3: VER NMETHODS METHODS / VER METHOD *)
Definition enc_v5_methods (ms : list N) : list N := [len ms] ++ ms.  (* after VER *)
Definition enc_v5_method_reply (m : N) : list N := [5; m].

(* section 7: RSV(2) FRAG ATYP DST.ADDR DST.PORT DATA *)
Definition enc_udp (frag : N) (a : addr) (port : N) (data : list N) : list N :=
  [0; 0; frag] ++ enc_addr a ++ be16 port ++ data.

(* a conforming client parsing a relayed datagram *)
Definition client_parse_udp (d : list N) : option (addr * N * list N) :=
  match d with
  | _ :: _ :: 0 :: 1 :: a :: b :: c :: e :: p :: q :: data => Some (AV4 a b c e, p * 256 + q, data)
  | _ :: _ :: 0 :: 3 :: n :: r =>
      if len r <? n + 2 then None
      else match skipn (N.to_nat n) r with
           | p :: q :: data => Some (ADom (firstn (N.to_nat n) r), p * 256 + q, data)
           | _ => None
           end
  | _ :: _ :: 0 :: 4 :: r =>
      if len r <? 18 then None
      else match skipn 16 r with
           | p :: q :: data => Some (AV6 (firstn 16 r), p * 256 + q, data)
           | _ => None
           end
  | _ => None
  end.

(* SOCKS4: (VN) CD DSTPORT DSTIP USERID NULL;  SOCKS4a: DSTIP = 0.0.0.x (x <> 0), then the
   domain name and a second NULL.  The version octet is read by the caller. *)
Definition no_nul (s : list N) : Prop := Forall (fun b => b <> 0 /\ b < 256) s.

Inductive v4req :=
| V4 (cmd port a b c d : N) (user : list N)
| V4a (cmd port x : N) (user dom : list N).

Definition v4req_ok (r : v4req) : Prop :=
  match r with
  | V4 cmd port a b c d user =>
      cmd < 256 /\ port < 65536 /\ a < 256 /\ b < 256 /\ c < 256 /\ d < 256 /\ no_nul user /\
      ~ (a = 0 /\ b = 0 /\ c = 0 /\ d <> 0)
  | V4a cmd port x user dom =>
      cmd < 256 /\ port < 65536 /\ 0 < x < 256 /\ no_nul user /\ no_nul dom
  end.

Definition enc_v4 (r : v4req) : list N :=
  match r with
  | V4 cmd port a b c d user => [cmd] ++ be16 port ++ [a; b; c; d] ++ user ++ [0]
  | V4a cmd port x user dom => [cmd] ++ be16 port ++ [0; 0; 0; x] ++ user ++ [0] ++ dom ++ [0]
  end.

Definition v4_fields (r : v4req) : N * addr * N :=
  match r with
  | V4 cmd port a b c d _ => (cmd, AV4 a b c d, port)
  | V4a cmd port _ _ dom => (cmd, ADom dom, port)
  end.

(* reply: VN = 0, CD, DSTPORT, DSTIP (ignored by clients for CONNECT) *)
Definition enc_v4_reply (cd : N) : list N := [0; cd] ++ be16 0 ++ [0; 0; 0; 0].

Definition strict_prefix (p l : list N) : Prop := exists s, s <> [] /\ l = p ++ s.
