(* Executable model of penguin-socks (v4.rs, v5.rs): readers over an input byte list,
   writers as byte lists, the UDP relay header parser/builder.
   A reader either finishes ([Done v rest]: [rest] is what it did not consume), runs out of
   input ([NeedMore]: UnexpectedEof on a closed input, Pending on an open one) or fails. *)
From PV Require Export Common.Bytes.

Inductive addr :=
| AV4 (a b c d : N)
| ADom (name : list N)
| AV6 (octets : list N).      (* 16 octets *)

Inductive serr :=
| ESocksVersion (v : N)
| EAddressType (t : N)
| EParseAssociate
| EFragmentedUdp
| EUnknownAddressType (t : N).

Inductive res (A : Type) :=
| Done (a : A) (rest : list N)
| NeedMore
| Fail (e : serr) (written : list N).
Arguments Done {A}. Arguments NeedMore {A}. Arguments Fail {A}.

Definition bind {A B} (r : res A) (k : A -> list N -> res B) : res B :=
  match r with Done a rest => k a rest | NeedMore => NeedMore | Fail e w => Fail e w end.

Definition read_u8 (i : list N) : res N :=
  match i with b :: r => Done b r | [] => NeedMore end.
Definition read_u16 (i : list N) : res N :=
  match i with a :: b :: r => Done (a * 256 + b) r | _ => NeedMore end.
Definition read_exact (n : N) (i : list N) : res (list N) :=
  if len i <? n then NeedMore else Done (firstn (N.to_nat n) i) (skipn (N.to_nat n) i).

(* read_until(0) followed by removing the terminator; input that ends before a NUL is an
   UnexpectedEof *)
Fixpoint read_cstr (i : list N) : res (list N) :=
  match i with
  | [] => NeedMore
  | b :: r => if b =? 0 then Done [] r
              else match read_cstr r with
                   | Done s rest => Done (b :: s) rest
                   | NeedMore => NeedMore
                   | Fail e w => Fail e w
                   end
  end.

(* decimal text of an octet, as Ipv4Addr's Display prints it *)
Definition dec (n : N) : list N :=
  if n <? 10 then [48 + n]
  else if n <? 100 then [48 + n / 10; 48 + n mod 10]
  else [48 + n / 100; 48 + (n / 10) mod 10; 48 + n mod 10].
Definition render_v4 (a b c d : N) : list N :=
  dec a ++ [46] ++ dec b ++ [46] ++ dec c ++ [46] ++ dec d.

(* ---- SOCKS4 / SOCKS4a (input after the version octet) ---- *)
Definition v4_read_request (i : list N) : res (N * addr * N) :=
  bind (read_u8 i) (fun cmd i =>
  bind (read_u16 i) (fun port i =>
  bind (read_exact 4 i) (fun ip i =>
  bind (read_cstr i) (fun _user i =>
  match ip with
  | [a; b; c; d] =>
      (* SOCKS4a: 0.0.0.x with x non-zero *)
      if (a =? 0) && (b =? 0) && (c =? 0) && negb (d =? 0)
      then bind (read_cstr i) (fun dom i => Done (cmd, ADom dom, port) i)
      else Done (cmd, AV4 a b c d, port) i
  | _ => NeedMore (* unreachable: read_exact 4 *)
  end)))).

Definition v4_write_response (code : N) : list N := [0; code; 0; 0; 0; 0; 0; 0].

(* ---- SOCKS5 ---- *)
Definition atyp_unsupported_reply : list N := [5; 8; 0; 1; 0; 0; 0; 0; 0; 0].

Definition v5_read_address (i : list N) : res addr :=
  bind (read_u8 i) (fun t i =>
  match t with
  | 1 => bind (read_exact 4 i) (fun o i =>
           match o with [a; b; c; d] => Done (AV4 a b c d) i | _ => NeedMore end)
  | 3 => bind (read_u8 i) (fun n i => bind (read_exact n i) (fun name i => Done (ADom name) i))
  | 4 => bind (read_exact 16 i) (fun o i => Done (AV6 o) i)
  | other => Fail (EAddressType other) atyp_unsupported_reply
  end).

Definition v5_read_request (i : list N) : res (N * addr * N) :=
  bind (read_u8 i) (fun ver i =>
  if negb (ver =? 5) then Fail (ESocksVersion ver) [] else
  bind (read_u8 i) (fun cmd i =>
  bind (read_u8 i) (fun _rsv i =>
  bind (v5_read_address i) (fun a i =>
  bind (read_u16 i) (fun port i => Done (cmd, a, port) i))))).

Definition v5_read_auth_methods (i : list N) : res (list N) :=
  bind (read_u8 i) (fun n i => read_exact n i).

Definition v5_write_auth_method (m : N) : list N := [5; m].

(* bound address of a reply: IPv4 or IPv6 socket address *)
Definition v5_write_response (code : N) (a : addr) (port : N) : list N :=
  match a with
  | AV4 x y z w => [5; code; 0; 1; x; y; z; w] ++ be16 port
  | AV6 o => [5; code; 0; 4] ++ o ++ be16 port
  | ADom _ => []   (* not expressible: SocketAddr has no domain form *)
  end.
Definition v5_write_response_unspecified (code : N) : list N := [5; code; 0; 1; 0; 0; 0; 0; 0; 0].

(* ---- UDP relay header ---- *)
Inductive uout :=
| UOk (a : addr) (port : N) (data : list N)
| UErr (e : serr)
| UPanic.

Definition ubind {A} (o : option A) (k : A -> uout) : uout :=
  match o with Some a => k a | None => UPanic end.

Definition get_exact (n : N) (c : list N) : option (list N * list N) := split_to n c.

Definition parse_udp_relay_header (buf : list N) : uout :=
  if len buf <? 4 then UErr EParseAssociate else
  ubind (get_u16 buf) (fun '(_rsv, c) =>
  ubind (get_u8 c) (fun '(frag, c) =>
  if negb (frag =? 0) then UErr EFragmentedUdp else
  ubind (get_u8 c) (fun '(atyp, c) =>
  match atyp with
  | 1 => if len c <? 6 then UErr EParseAssociate else
         ubind (get_exact 4 c) (fun '(o, c) =>
         ubind (get_u16 c) (fun '(port, c) =>
         match o with [x; y; z; w] => UOk (AV4 x y z w) port c | _ => UPanic end))
  | 3 => if len c <? 1 then UErr EParseAssociate else
         ubind (get_u8 c) (fun '(n, c) =>
         if len c <? n + 2 then UErr EParseAssociate else
         ubind (split_to n c) (fun '(name, c) =>
         ubind (get_u16 c) (fun '(port, c) => UOk (ADom name) port c)))
  | 4 => if len c <? 18 then UErr EParseAssociate else
         ubind (get_exact 16 c) (fun '(o, c) =>
         ubind (get_u16 c) (fun '(port, c) => UOk (AV6 o) port c))
  | y => UErr (EUnknownAddressType y)
  end))).

(* udp_relay_response: RSV RSV FRAG ATYP ADDR PORT DATA *)
Definition udp_relay_response (a : addr) (port : N) (data : list N) : list N :=
  match a with
  | AV4 x y z w => [0; 0; 0; 1; x; y; z; w] ++ be16 port ++ data
  | AV6 o => [0; 0; 0; 4] ++ o ++ be16 port ++ data
  | ADom _ => []   (* not expressible: the target is a SocketAddr *)
  end.

(* ---- the tunnel client's SOCKS listener (penguin/src/client/handle_remote/socks.rs), as far as it answers without
   the tunnel: version 5 greeting -> method selection ("no authentication" if it is offered, in whatever position of the
   list, else "no acceptable method" and the connection is closed); then the request: commands other than CONNECT and
   UDP ASSOCIATE are answered "command not supported"; a request that does not parse is not answered.
   None: outside this part (another version byte; CONNECT / ASSOCIATE need the tunnel). ---- *)
Definition client_dialog5 (i : list N) : option (list N) :=
  match i with
  | 5 :: r =>
      match v5_read_auth_methods r with
      | Done ms rest =>
          if existsb (N.eqb 0) ms then
            match v5_read_request rest with
            | Done (cmd, _, _) _ =>
                if (cmd =? 1) || (cmd =? 3) then None
                else Some (v5_write_auth_method 0 ++ v5_write_response_unspecified 7)
            | Fail _ w => Some (v5_write_auth_method 0 ++ w)   (* e.g. the "address type not supported" reply *)
            | NeedMore => Some (v5_write_auth_method 0)
            end
          else Some (v5_write_auth_method 255)
      | _ => Some []
      end
  | _ => None
  end.

(* the same listener for every first byte: version 4 requests other than CONNECT are answered "rejected" (91); an
   unknown version is closed without an answer *)
Definition client_dialog (i : list N) : option (list N) :=
  match i with
  | 4 :: r =>
      match v4_read_request r with
      | Done (cmd, _, _) _ => if cmd =? 1 then None else Some (v4_write_response 91)
      | Fail _ w => Some w
      | NeedMore => Some []
      end
  | 5 :: _ => client_dialog5 i
  | _ => Some []
  end.

(* a CONNECT request through the listener once the tunnel is there: the reply, and the target (host bytes, port) the
   tunnel server is asked to connect to: exactly the address of the request *)
Definition host_bytes (a : addr) : option (list N) :=
  match a with
  | AV4 a b c d => Some (render_v4 a b c d)
  | ADom n => Some n
  | AV6 _ => None     (* the text form of an IPv6 address is not modelled *)
  end.

Definition client_connect (i : list N) : option (list N * list N * N) :=
  match i with
  | 4 :: r =>
      match v4_read_request r with
      | Done (1, a, port) _ => option_map (fun h => (v4_write_response 90, h, port)) (host_bytes a)
      | _ => None
      end
  | 5 :: r =>
      match v5_read_auth_methods r with
      | Done ms rest =>
          if existsb (N.eqb 0) ms then
            match v5_read_request rest with
            | Done (1, a, port) _ =>
                option_map (fun h => (v5_write_auth_method 0 ++ v5_write_response_unspecified 0, h, port)) (host_bytes a)
            | _ => None
            end
          else None
      | _ => None
      end
  | _ => None
  end.
