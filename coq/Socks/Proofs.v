From PV Require Import Socks.Model Socks.Spec.
From Coq Require Import ZifyBool ZifyN ZifyNat.

(* ---- prefixes ---- *)
Lemma sp_cons p b y : strict_prefix p (b :: y) ->
  p = [] \/ exists p', p = b :: p' /\ strict_prefix p' y.
Proof.
  intros (s & Hs & E). destruct p as [|x p']; [auto|right].
  cbn [app] in E. inversion E; subst. exists p'. split; auto. exists s. auto.
Qed.

Lemma sp_app p x y : strict_prefix p (x ++ y) ->
  len p < len x \/ exists p', p = x ++ p' /\ strict_prefix p' y.
Proof.
  revert p. induction x as [|b x IH]; intros p H.
  - right. exists p. auto.
  - cbn [app] in H. apply sp_cons in H as [->|(p' & -> & H)].
    + left. rewrite len_cons. change (len (@nil N)) with 0. lia.
    + destruct (IH _ H) as [L|(q & -> & Hq)].
      * left. rewrite !len_cons. lia.
      * right. exists q. auto.
Qed.

Lemma sp_nil p : ~ strict_prefix p [].
Proof. intros (s & Hs & E). destruct p; cbn in E; [subst; auto|discriminate]. Qed.

(* ---- primitives ---- *)
Lemma read_exact_app x rest : read_exact (len x) (x ++ rest) = Done x rest.
Proof.
  unfold read_exact. rewrite len_app.
  destruct (N.ltb_spec (len x + len rest) (len x)); [lia|].
  unfold len. rewrite Nat2N.id, firstn_app, skipn_app, Nat.sub_diag, firstn_all, skipn_all.
  cbn [firstn skipn]. now rewrite app_nil_r.
Qed.

Lemma read_exact_short n p : len p < n -> read_exact n p = NeedMore.
Proof. intros H. unfold read_exact. destruct (N.ltb_spec (len p) n); [auto|lia]. Qed.

Lemma read_cstr_app s rest : no_nul s -> read_cstr (s ++ 0 :: rest) = Done s rest.
Proof.
  induction s as [|b s IH]; intros H; cbn [app read_cstr]; [reflexivity|].
  apply Forall_cons_iff in H as [[Hb _] Hs].
  destruct (N.eqb_spec b 0); [contradiction|]. now rewrite IH.
Qed.

Lemma read_cstr_no_nul p : no_nul p -> read_cstr p = NeedMore.
Proof.
  induction p as [|b p IH]; intros H; cbn [read_cstr]; [reflexivity|].
  apply Forall_cons_iff in H as [[Hb _] Hs].
  destruct (N.eqb_spec b 0); [contradiction|]. now rewrite IH.
Qed.

Lemma no_nul_prefix p x : no_nul x -> (exists s, x = p ++ s) -> no_nul p.
Proof. intros H [s ->]. now apply Forall_app in H. Qed.

Lemma sp_short_prefix p x y : strict_prefix p (x ++ y) -> len p < len x -> exists s, x = p ++ s.
Proof.
  revert p. induction x as [|b x IH]; intros p H L.
  - change (len (@nil N)) with 0 in L. lia.
  - cbn [app] in H. apply sp_cons in H as [->|(p' & -> & H)]; [exists (b :: x); reflexivity|].
    rewrite !len_cons in L. destruct (IH _ H) as [s ->]; [lia|]. exists s. reflexivity.
Qed.

(* a strict prefix of  s ++ 0 :: y : either it ends inside s (reader starves) or it covers the NUL *)
Lemma read_cstr_prefix p s y : no_nul s -> strict_prefix p (s ++ 0 :: y) ->
  read_cstr p = NeedMore \/ exists p', p = s ++ 0 :: p' /\ strict_prefix p' y.
Proof.
  intros Hs H. destruct (sp_app _ _ _ H) as [L|(q & -> & Hq)].
  - left. apply read_cstr_no_nul. eapply no_nul_prefix; eauto. eapply sp_short_prefix; eauto.
  - apply sp_cons in Hq as [->|(p' & -> & Hp')].
    + left. rewrite app_nil_r. now apply read_cstr_no_nul.
    + right. eauto.
Qed.

(* ---- SOCKS5 request ---- *)
Lemma v5_read_address_exact a tail : addr_ok a ->
  v5_read_address (enc_addr a ++ tail) = Done a tail.
Proof.
  destruct a as [a b c d|name|o]; intros H; unfold v5_read_address, enc_addr.
  - cbn [app read_u8 bind]. change (a :: b :: c :: d :: tail) with ([a; b; c; d] ++ tail).
    change 4 with (len [a; b; c; d]). now rewrite read_exact_app.
  - cbn [app read_u8 bind]. now rewrite read_exact_app.
  - destruct H as [Hl _]. cbn [app read_u8 bind]. rewrite <- Hl at 1. now rewrite read_exact_app.
Qed.

Theorem v5_read_exact cmd a port tail : addr_ok a -> port < 65536 ->
  v5_read_request (enc_v5_request cmd a port ++ tail) = Done (cmd, a, port) tail.
Proof.
  intros Ha Hp. unfold v5_read_request, enc_v5_request. cbn [app read_u8 bind].
  change (negb (5 =? 5)) with false. cbv iota. cbn [read_u8 bind]. rewrite <- !app_assoc.
  rewrite v5_read_address_exact by exact Ha. cbn [bind].
  unfold be16. cbn [app read_u16 bind]. f_equal. f_equal. lia.
Qed.

Lemma v5_read_address_prefix a y p : addr_ok a -> strict_prefix p (enc_addr a ++ y) ->
  v5_read_address p = NeedMore \/ exists p', p = enc_addr a ++ p' /\ strict_prefix p' y.
Proof.
  intros Ha H. unfold v5_read_address.
  destruct a as [a b c d|name|o]; unfold enc_addr in *; cbn [app] in H.
  - apply sp_cons in H as [->|(p1 & -> & H)]; [left; reflexivity|]. cbn [read_u8 bind].
    destruct (sp_app p1 [a; b; c; d] y H) as [L|(q & -> & Hq)].
    + left. rewrite read_exact_short; auto.
    + right. exists q. auto.
  - apply sp_cons in H as [->|(p1 & -> & H)]; [left; reflexivity|]. cbn [read_u8 bind].
    apply sp_cons in H as [->|(p2 & -> & H)]; [left; reflexivity|]. cbn [read_u8 bind].
    destruct (sp_app _ _ _ H) as [L|(q & -> & Hq)].
    + left. rewrite read_exact_short; auto.
    + right. exists q. auto.
  - apply sp_cons in H as [->|(p1 & -> & H)]; [left; reflexivity|]. cbn [read_u8 bind].
    destruct Ha as [Hl _].
    destruct (sp_app _ _ _ H) as [L|(q & -> & Hq)].
    + left. rewrite read_exact_short; auto. lia.
    + right. exists q. auto.
Qed.

Theorem v5_read_prefix cmd a port p : addr_ok a -> port < 65536 ->
  strict_prefix p (enc_v5_request cmd a port) -> v5_read_request p = NeedMore.
Proof.
  intros Ha Hp H. unfold enc_v5_request in H. cbn [app] in H. unfold v5_read_request.
  apply sp_cons in H as [->|(p1 & -> & H)]; [reflexivity|]. cbn [read_u8 bind].
  change (negb (5 =? 5)) with false. cbv iota.
  apply sp_cons in H as [->|(p2 & -> & H)]; [reflexivity|]. cbn [read_u8 bind].
  apply sp_cons in H as [->|(p3 & -> & H)]; [reflexivity|]. cbn [read_u8 bind].
  destruct (v5_read_address_prefix _ _ _ Ha H) as [E|(q & -> & Hq)]; [now rewrite E|].
  rewrite v5_read_address_exact by exact Ha. cbn [bind].
  unfold be16 in Hq.
  apply sp_cons in Hq as [->|(q1 & -> & Hq)]; [reflexivity|].
  apply sp_cons in Hq as [->|(q2 & -> & Hq)]; [reflexivity|].
  now apply sp_nil in Hq.
Qed.

(* a request with any other version octet or address type is refused, never accepted *)
Theorem v5_bad_version v rest : v <> 5 -> v5_read_request (v :: rest) = Fail (ESocksVersion v) [].
Proof.
  intros H. unfold v5_read_request. cbn [read_u8 bind].
  destruct (N.eqb_spec v 5); [contradiction|reflexivity].
Qed.

Theorem v5_bad_atyp cmd rsv t rest : t <> 1 -> t <> 3 -> t <> 4 ->
  v5_read_request (5 :: cmd :: rsv :: t :: rest) = Fail (EAddressType t) atyp_unsupported_reply.
Proof.
  intros H1 H3 H4. unfold v5_read_request, v5_read_address. cbn [read_u8 bind].
  change (negb (5 =? 5)) with false. cbv iota. cbn [read_u8 bind].
  destruct t as [|q]; [reflexivity|].
  destruct q as [[q|q|]|[q|[q|q|]|]|]; try reflexivity; congruence.
Qed.

(* ---- SOCKS4 / 4a ---- *)
Theorem v4_read_exact r tail : v4req_ok r ->
  v4_read_request (enc_v4 r ++ tail) = Done (v4_fields r) tail.
Proof.
  destruct r as [cmd port a b c d user|cmd port x user dom]; intros H; unfold v4_read_request, enc_v4.
  - destruct H as (Hc & Hp & Ha & Hb & Hcc & Hd & Hu & Hn).
    unfold be16. cbn [app read_u8 read_u16 bind].
    change (a :: b :: c :: d :: user ++ [0] ++ tail) with ([a; b; c; d] ++ user ++ [0] ++ tail).
    rewrite <- !app_assoc. cbn [app].
    change (a :: b :: c :: d :: user ++ 0 :: tail) with ([a; b; c; d] ++ user ++ 0 :: tail).
    change 4 with (len [a; b; c; d]). rewrite read_exact_app. cbn [bind].
    rewrite read_cstr_app by exact Hu. cbn [bind].
    assert (E : (a =? 0) && (b =? 0) && (c =? 0) && negb (d =? 0) = false).
    { destruct (N.eqb_spec a 0), (N.eqb_spec b 0), (N.eqb_spec c 0), (N.eqb_spec d 0); cbn; auto.
      exfalso. apply Hn. auto. }
    rewrite E. cbn [v4_fields]. f_equal. f_equal. f_equal. lia.
  - destruct H as (Hc & Hp & Hx & Hu & Hd).
    unfold be16. cbn [app read_u8 read_u16 bind].
    repeat (rewrite <- app_assoc; cbn [app]).
    change (0 :: 0 :: 0 :: x :: user ++ 0 :: dom ++ 0 :: tail)
      with ([0; 0; 0; x] ++ user ++ 0 :: dom ++ 0 :: tail).
    change 4 with (len [0; 0; 0; x]). rewrite read_exact_app. cbn [bind].
    rewrite read_cstr_app by exact Hu. cbn [bind].
    assert (E : (0 =? 0) && (0 =? 0) && (0 =? 0) && negb (x =? 0) = true).
    { destruct (N.eqb_spec x 0); [lia|reflexivity]. }
    rewrite E. rewrite read_cstr_app by exact Hd. cbn [bind v4_fields]. f_equal. f_equal. f_equal. lia.
Qed.

Theorem v4_read_prefix r p : v4req_ok r -> strict_prefix p (enc_v4 r) -> v4_read_request p = NeedMore.
Proof.
  destruct r as [cmd port a b c d user|cmd port x user dom]; intros H Hp;
    unfold v4_read_request, enc_v4, be16 in *; cbn [app] in Hp.
  - destruct H as (Hc & Hpo & Ha & Hb & Hcc & Hd & Hu & Hn).
    apply sp_cons in Hp as [->|(p1 & -> & Hp)]; [reflexivity|]. cbn [read_u8 bind].
    apply sp_cons in Hp as [->|(p2 & -> & Hp)]; [reflexivity|].
    apply sp_cons in Hp as [->|(p3 & -> & Hp)]; [reflexivity|]. cbn [read_u16 bind].
    destruct (sp_app p3 [a; b; c; d] (user ++ [0]) Hp) as [L|(q & -> & Hq)]; [rewrite read_exact_short; auto|].
    change 4 with (len [a; b; c; d]). rewrite read_exact_app. cbn [bind].
    destruct (read_cstr_prefix _ _ _ Hu Hq) as [E|(q' & -> & Hq')]; [now rewrite E|].
    now apply sp_nil in Hq'.
  - destruct H as (Hc & Hpo & Hx & Hu & Hd).
    apply sp_cons in Hp as [->|(p1 & -> & Hp)]; [reflexivity|]. cbn [read_u8 bind].
    apply sp_cons in Hp as [->|(p2 & -> & Hp)]; [reflexivity|].
    apply sp_cons in Hp as [->|(p3 & -> & Hp)]; [reflexivity|]. cbn [read_u16 bind].
    destruct (sp_app p3 [0; 0; 0; x] (user ++ 0 :: dom ++ [0]) Hp) as [L|(q & -> & Hq)]; [rewrite read_exact_short; auto|].
    change 4 with (len [0; 0; 0; x]). rewrite read_exact_app. cbn [bind].
    destruct (read_cstr_prefix _ _ _ Hu Hq) as [E|(q' & -> & Hq')]; [now rewrite E|].
    rewrite read_cstr_app by exact Hu. cbn [bind].
    assert (E : (0 =? 0) && (0 =? 0) && (0 =? 0) && negb (x =? 0) = true).
    { destruct (N.eqb_spec x 0); [lia|reflexivity]. }
    rewrite E.
    change (dom ++ [0]) with (dom ++ 0 :: []) in Hq'.
    destruct (read_cstr_prefix _ _ _ Hd Hq') as [E2|(q2 & -> & Hq2)]; [now rewrite E2|].
    now apply sp_nil in Hq2.
Qed.

(* ---- replies ---- *)
Theorem v5_reply_bytes rep a port : match a with ADom _ => False | _ => True end ->
  v5_write_response rep a port = enc_v5_reply rep a port.
Proof. destruct a; intros H; try contradiction; reflexivity. Qed.

Theorem v5_reply_unspecified rep : v5_write_response_unspecified rep = enc_v5_reply rep (AV4 0 0 0 0) 0.
Proof. reflexivity. Qed.

Theorem v4_reply_bytes cd : v4_write_response cd = enc_v4_reply cd.
Proof. reflexivity. Qed.

Theorem v5_method_reply m : v5_write_auth_method m = enc_v5_method_reply m.
Proof. reflexivity. Qed.

Theorem v5_methods_exact ms tail : len ms <= 255 ->
  v5_read_auth_methods (enc_v5_methods ms ++ tail) = Done ms tail.
Proof. intros _. unfold v5_read_auth_methods, enc_v5_methods. cbn [app read_u8 bind]. apply read_exact_app. Qed.

(* ---- UDP relay header ---- *)
Theorem udp_response_is_rfc a port data : match a with ADom _ => False | _ => True end ->
  udp_relay_response a port data = enc_udp 0 a port data.
Proof. destruct a; intros H; try contradiction; reflexivity. Qed.

Theorem udp_client_roundtrip a port data : addr_ok a -> port < 65536 ->
  match a with ADom _ => False | _ => True end ->
  client_parse_udp (udp_relay_response a port data) = Some (a, port, data).
Proof.
  intros Ha Hp Hd. destruct a as [x y z w|name|o]; try contradiction.
  - unfold udp_relay_response, be16. cbn [app client_parse_udp]. repeat f_equal. lia.
  - destruct Ha as [Hl Ho]. unfold udp_relay_response. cbn [app client_parse_udp].
    assert (L16 : length o = 16%nat) by (unfold len in Hl; lia).
    rewrite len_app. destruct (N.ltb_spec (len o + len (be16 port ++ data)) 18) as [H|H].
    { unfold be16 in H. cbn [app] in H. rewrite !len_cons in H. lia. }
    rewrite skipn_app, firstn_app, L16, Nat.sub_diag, skipn_all2, firstn_all2 by lia.
    unfold be16. cbn [app skipn firstn]. rewrite app_nil_r. repeat f_equal. lia.
Qed.

Ltac len_ge :=
  match goal with |- context [len ?l <? ?n] =>
    let H := fresh in
    assert (H : (len l <? n) = false)
      by (apply N.ltb_ge; repeat (rewrite ?len_app, ?len_cons); lia);
    rewrite H; clear H end.

Theorem udp_parse_exact a port data : addr_ok a -> port < 65536 ->
  parse_udp_relay_header (enc_udp 0 a port data) = UOk a port data.
Proof.
  intros Ha Hp. unfold parse_udp_relay_header, enc_udp.
  destruct a as [x y z w|name|o]; unfold enc_addr, be16; cbn [app].
  - len_ge. cbn [get_u16 get_u8 ubind]. change (negb (0 =? 0)) with false. cbv iota.
    cbn [get_u8 ubind]. len_ge.
    unfold get_exact, split_to. len_ge.
    change (N.to_nat 4) with 4%nat. cbn [firstn skipn ubind get_u16]. repeat f_equal. lia.
  - destruct Ha as [Hl Ho].
    len_ge. cbn [get_u16 get_u8 ubind]. change (negb (0 =? 0)) with false. cbv iota.
    cbn [get_u8 ubind]. len_ge. cbn [get_u8 ubind]. len_ge.
    rewrite split_to_app. cbn [ubind get_u16]. repeat f_equal. lia.
  - destruct Ha as [Hl Ho].
    len_ge. cbn [get_u16 get_u8 ubind]. change (negb (0 =? 0)) with false. cbv iota.
    cbn [get_u8 ubind]. len_ge.
    unfold get_exact. rewrite <- Hl. rewrite split_to_app. cbn [ubind get_u16]. repeat f_equal. lia.
Qed.

Theorem udp_parse_fragment frag a port data : frag <> 0 ->
  parse_udp_relay_header (enc_udp frag a port data) = UErr EFragmentedUdp.
Proof.
  intros H. unfold parse_udp_relay_header, enc_udp. cbn [app].
  assert (L : (len (0 :: 0 :: frag :: enc_addr a ++ be16 port ++ data) <? 4) = false).
  { rewrite !len_cons. destruct a; unfold enc_addr; cbn [app]; rewrite ?len_cons; lia. }
  rewrite L. cbn [get_u16 get_u8 ubind]. destruct (N.eqb_spec frag 0); [contradiction|reflexivity].
Qed.

Theorem udp_parse_never_panics buf : parse_udp_relay_header buf <> UPanic.
Proof.
  unfold parse_udp_relay_header.
  destruct (N.ltb_spec (len buf) 4) as [H|H]; [discriminate|].
  destruct buf as [|r1 [|r2 [|frag [|atyp c]]]]; rewrite ?len_cons in H; try (change (len (@nil N)) with 0 in H; lia).
  cbn [get_u16 get_u8 ubind]. destruct (negb (frag =? 0)); [discriminate|].
  destruct atyp as [|q]; [discriminate|].
  destruct q as [[q|q|]|[q|[q|q|]|]|]; try discriminate.
  - (* 3: domain *)
    destruct (N.ltb_spec (len c) 1) as [H1|H1]; [discriminate|].
    destruct c as [|n c]; [change (len (@nil N)) with 0 in H1; lia|]. cbn [get_u8 ubind].
    destruct (N.ltb_spec (len c) (n + 2)) as [H2|H2]; [discriminate|].
    unfold split_to. destruct (N.ltb_spec (len c) n); [lia|]. cbn [ubind].
    assert (L : 2 <= len (skipn (N.to_nat n) c)).
    { unfold len in *. rewrite skipn_length. lia. }
    destruct (skipn (N.to_nat n) c) as [|p [|q' r]]; rewrite ?len_cons in L;
      try (change (len (@nil N)) with 0 in L; lia). discriminate.
  - (* 4: ipv6 *)
    destruct (N.ltb_spec (len c) 18) as [H1|H1]; [discriminate|].
    unfold get_exact, split_to. destruct (N.ltb_spec (len c) 16); [lia|]. cbn [ubind].
    assert (L : 2 <= len (skipn (N.to_nat 16) c)).
    { unfold len in *. rewrite skipn_length. lia. }
    destruct (skipn (N.to_nat 16) c) as [|p [|q' r]]; rewrite ?len_cons in L;
      try (change (len (@nil N)) with 0 in L; lia). discriminate.
  - (* 1: ipv4 *)
    destruct (N.ltb_spec (len c) 6) as [H1|H1]; [discriminate|].
    destruct c as [|x [|y [|z [|w [|p [|q' r]]]]]]; rewrite ?len_cons in H1;
      try (change (len (@nil N)) with 0 in H1; lia).
    unfold get_exact, split_to.
    destruct (N.ltb_spec (len (x :: y :: z :: w :: p :: q' :: r)) 4) as [H4|H4];
      [rewrite !len_cons in H4; lia|].
    change (N.to_nat 4) with 4%nat. cbn [firstn skipn ubind get_u16]. discriminate.
Qed.

(* ---- the client's method selection ---- *)
Lemma existsb_zero ms : existsb (N.eqb 0) ms = true <-> In 0 ms.
Proof.
  rewrite existsb_exists. split.
  - intros (x & I & E). apply N.eqb_eq in E. now subst x.
  - intros I. exists 0. split; [exact I|reflexivity].
Qed.

(* "no authentication required" is selected if and only if the client offers it, wherever it stands in the list;
   otherwise the answer is "no acceptable method" and nothing else *)
Theorem client_selects_noauth r ms rest o :
  v5_read_auth_methods r = Done ms rest -> client_dialog5 (5 :: r) = Some o ->
  (In 0 ms -> firstn 2 o = [5; 0]) /\ (~ In 0 ms -> o = [5; 255]).
Proof.
  intros H D. cbn [client_dialog5] in D. rewrite H in D.
  destruct (existsb (N.eqb 0) ms) eqn:E.
  - apply existsb_zero in E. split; [intros _|tauto].
    destruct (v5_read_request rest) as [[[cmd a] p] rest'| |e w].
    + destruct ((cmd =? 1) || (cmd =? 3)); [discriminate|]. inversion D. reflexivity.
    + inversion D. reflexivity.
    + inversion D. reflexivity.
  - split; [intros I; apply existsb_zero in I; congruence|]. intros _. inversion D. reflexivity.
Qed.

(* a version 4 request with another command than CONNECT is answered "request rejected" (91), byte-exact *)
Theorem client_v4_rejects_other_commands r cmd a port rest :
  v4_read_request r = Done (cmd, a, port) rest -> cmd <> 1 ->
  client_dialog (4 :: r) = Some [0; 91; 0; 0; 0; 0; 0; 0].
Proof.
  intros H C. cbn [client_dialog]. rewrite H. destruct (N.eqb_spec cmd 1); [contradiction|reflexivity].
Qed.

(* the target the tunnel is asked for is the request's address, byte for byte (a SOCKS4a / SOCKS5 domain name is passed
   on as it was received), and its port *)
Theorem client_connect_target_v4a r dom port rest :
  v4_read_request r = Done (1, ADom dom, port) rest ->
  client_connect (4 :: r) = Some ([0; 90; 0; 0; 0; 0; 0; 0], dom, port).
Proof. intros H. cbn [client_connect]. rewrite H. reflexivity. Qed.

Theorem client_connect_target_v5 r ms rest dom port rest' :
  v5_read_auth_methods r = Done ms rest -> In 0 ms ->
  v5_read_request rest = Done (1, ADom dom, port) rest' ->
  client_connect (5 :: r) = Some ([5; 0; 5; 0; 0; 1; 0; 0; 0; 0; 0; 0], dom, port).
Proof.
  intros H I R. cbn [client_connect]. rewrite H. apply existsb_zero in I. rewrite I, R. reflexivity.
Qed.
