(* Number-list encodings shared by the correspondence drivers: every case and every
   result is a [list N]; byte strings are length-prefixed. *)
From PV Require Export Common.Bytes.

Definition take_n (n : N) (l : list N) : list N * list N :=
  (firstn (N.to_nat n) l, skipn (N.to_nat n) l).

(* length-prefixed list *)
Definition parse_lp (l : list N) : option (list N * list N) :=
  match l with
  | n :: r => if len r <? n then None else Some (take_n n r)
  | [] => None
  end.

Definition put_lp (l : list N) : list N := len l :: l.

Definition MALFORMED : list N := [999999].
