(* Byte strings as lists of N (each element < 256), big-endian helpers. *)
From Coq Require Export List NArith Lia ZArith Bool.
From Coq Require Import ZifyBool ZifyN ZifyNat.
Export ListNotations.
Open Scope bool_scope.
Open Scope N_scope.

Ltac Zify.zify_post_hook ::= Z.div_mod_to_equations.

Arguments N.add : simpl never.
Arguments N.sub : simpl never.
Arguments N.mul : simpl never.
Arguments N.div : simpl never.
Arguments N.modulo : simpl never.
Arguments N.eqb : simpl never.
Arguments N.ltb : simpl never.
Arguments N.leb : simpl never.
Arguments N.pow : simpl never.

Definition byte_ok (b : N) : Prop := b < 256.
Definition bytes_ok (bs : list N) : Prop := Forall byte_ok bs.
Definition bytes_okb (bs : list N) : bool := forallb (fun b => b <? 256) bs.

Definition len {A} (l : list A) : N := N.of_nat (length l).

Definition be16 (n : N) : list N := [n / 256 mod 256; n mod 256].
Definition be32 (n : N) : list N :=
  [n / 16777216 mod 256; n / 65536 mod 256; n / 256 mod 256; n mod 256].

(* cursor primitives of the `bytes` crate: [None] = the crate would panic *)
Definition get_u8 (c : list N) : option (N * list N) :=
  match c with b :: r => Some (b, r) | _ => None end.
Definition get_u16 (c : list N) : option (N * list N) :=
  match c with a :: b :: r => Some (a * 256 + b, r) | _ => None end.
Definition get_u32 (c : list N) : option (N * list N) :=
  match c with
  | a :: b :: c :: d :: r => Some (((a * 256 + b) * 256 + c) * 256 + d, r)
  | _ => None
  end.
Definition split_to (n : N) (c : list N) : option (list N * list N) :=
  if len c <? n then None
  else Some (firstn (N.to_nat n) c, skipn (N.to_nat n) c).

Lemma len_app {A} (a b : list A) : len (a ++ b) = len a + len b.
Proof. unfold len. rewrite app_length. lia. Qed.
Lemma len_cons {A} (a : A) l : len (a :: l) = 1 + len l.
Proof. unfold len. cbn [length]. lia. Qed.
Lemma len_nil {A} : len (@nil A) = 0.
Proof. reflexivity. Qed.

Lemma bytes_ok_app a b : bytes_ok (a ++ b) <-> bytes_ok a /\ bytes_ok b.
Proof. unfold bytes_ok. apply Forall_app. Qed.

Lemma bytes_okb_ok bs : bytes_okb bs = true <-> bytes_ok bs.
Proof.
  unfold bytes_okb, bytes_ok, byte_ok. rewrite forallb_forall, Forall_forall.
  split; intros H x Hx; specialize (H x Hx); lia.
Qed.

Lemma be16_ok n : bytes_ok (be16 n).
Proof. unfold be16, bytes_ok, byte_ok. repeat constructor; lia. Qed.
Lemma be32_ok n : bytes_ok (be32 n).
Proof. unfold be32, bytes_ok, byte_ok. repeat constructor; lia. Qed.

Lemma get_u16_be16 n r : n < 65536 -> get_u16 (be16 n ++ r) = Some (n, r).
Proof. intros H. unfold be16, get_u16. cbn [app]. f_equal. f_equal. lia. Qed.

Lemma get_u32_be32 n r : n < 4294967296 -> get_u32 (be32 n ++ r) = Some (n, r).
Proof. intros H. unfold be32, get_u32. cbn [app]. f_equal. f_equal. lia. Qed.

Lemma be16_of_bytes a b : a < 256 -> b < 256 ->
  be16 (a * 256 + b) = [a; b] /\ a * 256 + b < 65536.
Proof. intros. unfold be16. split; [|lia]. f_equal; [|f_equal]; lia. Qed.

Lemma be32_of_bytes a b c d : a < 256 -> b < 256 -> c < 256 -> d < 256 ->
  be32 (((a * 256 + b) * 256 + c) * 256 + d) = [a; b; c; d] /\
  ((a * 256 + b) * 256 + c) * 256 + d < 4294967296.
Proof.
  intros. unfold be32. split; [|lia].
  f_equal; [|f_equal; [|f_equal; [|f_equal]]]; lia.
Qed.

Lemma split_to_app a b : split_to (len a) (a ++ b) = Some (a, b).
Proof.
  unfold split_to. rewrite len_app.
  destruct (N.ltb_spec (len a + len b) (len a)); [lia|].
  unfold len. rewrite Nat2N.id, firstn_app, skipn_app, Nat.sub_diag, firstn_all, skipn_all.
  cbn [firstn skipn]. now rewrite app_nil_r.
Qed.

Lemma split_to_some n c x y : split_to n c = Some (x, y) -> c = x ++ y /\ len x = n.
Proof.
  unfold split_to. destruct (N.ltb_spec (len c) n); [discriminate|].
  intros E. inversion E; subst. split; [now rewrite firstn_skipn|].
  unfold len in *. rewrite firstn_length. lia.
Qed.
