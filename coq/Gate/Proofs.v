From PV Require Import Gate.Model.
From Coq Require Import ZifyBool ZifyN ZifyNat.

Lemma beq_eq a b : beq a b = true <-> a = b.
Proof.
  revert b. induction a as [|x a IH]; intros [|y b]; cbn [beq]; split; intros H; try discriminate; auto.
  - apply andb_true_iff in H as [H1 H2]. apply N.eqb_eq in H1. apply IH in H2. congruence.
  - inversion H; subst. rewrite N.eqb_refl. cbn. apply IH. reflexivity.
Qed.

(* The specification, written from the property text: a request is a valid, authenticated
   upgrade request carrying key [k] *)
Definition header_is (r : req) (name wanted : list N) : Prop :=
  exists v, hget (r_hdrs r) name = Some v /\ map lower v = map lower wanted.

Definition ValidUpgrade (c : gcfg) (r : req) (k : list N) : Prop :=
  r_method r = s_GET /\ r_path r = s_ws /\
  header_is r h_connection v_upgrade /\ header_is r h_upgrade v_websocket /\
  header_is r h_wsver v_13 /\ header_is r h_proto v_proto /\
  hget (r_hdrs r) h_key = Some k /\
  (forall p, g_psk c = Some p -> hget (r_hdrs r) h_psk = Some p) /\
  r_ext r = true.

Lemma hmatch_spec r name wanted : hmatch (hget (r_hdrs r) name) wanted = true <-> header_is r name wanted.
Proof.
  unfold hmatch, header_is, eq_ic. destruct (hget (r_hdrs r) name) as [v|]; split.
  - intros H. exists v. split; auto. now apply beq_eq.
  - intros (v' & E & M). inversion E; subst. now apply beq_eq.
  - discriminate.
  - intros (v' & E & _). discriminate.
Qed.

Lemma path_ws_not_special : beq s_ws s_health = false /\ beq s_ws s_version = false.
Proof. split; reflexivity. Qed.

(* 101 and a tunnel if and only if the request is a fully valid, authenticated upgrade *)
Theorem upgrade_iff c r k : respond c r = RSwitch k <-> ValidUpgrade c r k.
Proof.
  unfold respond, ValidUpgrade. split.
  - destruct (beq (r_path r) s_health && negb (g_obfs c)); [discriminate|].
    destruct (beq (r_path r) s_version && negb (g_obfs c)); [discriminate|].
    destruct (beq (r_path r) s_ws) eqn:Ep; [|discriminate]. apply beq_eq in Ep.
    unfold ws_handler.
    destruct (beq (r_method r) s_GET) eqn:Em; cbn [negb]; [|discriminate]. apply beq_eq in Em.
    destruct (g_psk c) as [p|] eqn:Epsk.
    + cbn [andb]. destruct (opt_beq (hget (r_hdrs r) h_psk) (Some p)) eqn:Eo; cbn [negb]; [|discriminate].
      destruct (hget (r_hdrs r) h_key) as [key|] eqn:Ek; [|discriminate].
      destruct (hmatch (hget (r_hdrs r) h_connection) v_upgrade) eqn:H1; cbn [negb orb]; [|discriminate].
      destruct (hmatch (hget (r_hdrs r) h_upgrade) v_websocket) eqn:H2; cbn [negb orb]; [|discriminate].
      destruct (hmatch (hget (r_hdrs r) h_wsver) v_13) eqn:H3; cbn [negb orb]; [|discriminate].
      destruct (hmatch (hget (r_hdrs r) h_proto) v_proto) eqn:H4; cbn [negb orb]; [|discriminate].
      destruct (r_ext r) eqn:Ee; cbn [negb]; [|discriminate].
      intros E; inversion E; subst. repeat split; auto; try (now apply hmatch_spec).
      intros p' Hp'. inversion Hp'; subst. unfold opt_beq in Eo.
      destruct (hget (r_hdrs r) h_psk) as [x|]; [|discriminate]. apply beq_eq in Eo. congruence.
    + cbn [andb].
      destruct (hget (r_hdrs r) h_key) as [key|] eqn:Ek; [|discriminate].
      destruct (hmatch (hget (r_hdrs r) h_connection) v_upgrade) eqn:H1; cbn [negb orb]; [|discriminate].
      destruct (hmatch (hget (r_hdrs r) h_upgrade) v_websocket) eqn:H2; cbn [negb orb]; [|discriminate].
      destruct (hmatch (hget (r_hdrs r) h_wsver) v_13) eqn:H3; cbn [negb orb]; [|discriminate].
      destruct (hmatch (hget (r_hdrs r) h_proto) v_proto) eqn:H4; cbn [negb orb]; [|discriminate].
      destruct (r_ext r) eqn:Ee; cbn [negb]; [|discriminate].
      intros E; inversion E; subst. repeat split; auto; try (now apply hmatch_spec). intros p' Hp'. discriminate.
  - intros (Em & Ep & C1 & C2 & C3 & C4 & Ek & Epsk & Ee).
    rewrite Ep. destruct path_ws_not_special as [P1 P2]. rewrite P1, P2. cbn [andb].
    replace (beq s_ws s_ws) with true by reflexivity.
    unfold ws_handler. rewrite Em. replace (beq s_GET s_GET) with true by reflexivity. cbn [negb].
    apply hmatch_spec in C1, C2, C3, C4. rewrite Ek, C1, C2, C3, C4, Ee. cbn [negb orb].
    destruct (g_psk c) as [p|]; cbn [andb]; [|reflexivity].
    rewrite (Epsk p eq_refl). unfold opt_beq. replace (beq p p) with true by (symmetry; now apply beq_eq). reflexivity.
Qed.

(* every other request to /ws gets exactly what the same request gets on an unknown path *)
Theorem ws_fallback c r : r_path r = s_ws -> (forall k, ~ ValidUpgrade c r k) -> respond c r = RFallback.
Proof.
  intros Ep Hn. destruct (respond c r) as [| |k|] eqn:E; auto.
  - unfold respond in E. rewrite Ep in E. destruct path_ws_not_special as [P1 P2]. rewrite P1, P2 in E. cbn [andb] in E.
    replace (beq s_ws s_ws) with true in E by reflexivity. unfold ws_handler in E.
    repeat match type of E with context [if ?b then _ else _] => destruct b end; try discriminate;
      destruct (hget (r_hdrs r) h_key); try discriminate;
      repeat match type of E with context [if ?b then _ else _] => destruct b end; discriminate.
  - unfold respond in E. rewrite Ep in E. destruct path_ws_not_special as [P1 P2]. rewrite P1, P2 in E. cbn [andb] in E.
    replace (beq s_ws s_ws) with true in E by reflexivity. unfold ws_handler in E.
    repeat match type of E with context [if ?b then _ else _] => destruct b end; try discriminate;
      destruct (hget (r_hdrs r) h_key); try discriminate;
      repeat match type of E with context [if ?b then _ else _] => destruct b end; discriminate.
  - exfalso. apply (Hn k). now apply upgrade_iff.
Qed.

(* with obfuscation on, /health and /version are unknown paths *)
Theorem obfs_hides c r : g_obfs c = true -> (r_path r = s_health \/ r_path r = s_version) -> respond c r = RFallback.
Proof.
  intros Ho [Ep|Ep]; unfold respond; rewrite Ep, Ho; cbn [negb andb]; rewrite ?andb_false_r; reflexivity.
Qed.

(* any path other than the three known ones is the fallback, whatever the headers *)
Theorem other_paths_fallback c r : r_path r <> s_health -> r_path r <> s_version -> r_path r <> s_ws ->
  respond c r = RFallback.
Proof.
  intros H1 H2 H3. unfold respond.
  destruct (beq (r_path r) s_health) eqn:E1; [apply beq_eq in E1; contradiction|].
  destruct (beq (r_path r) s_version) eqn:E2; [apply beq_eq in E2; contradiction|].
  destruct (beq (r_path r) s_ws) eqn:E3; [apply beq_eq in E3; contradiction|]. reflexivity.
Qed.
