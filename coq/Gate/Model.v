(* Executable model of the server's request routing and WebSocket upgrade gate
   (penguin/src/server/service.rs: Service::call and ws_handler). *)
From PV Require Export Common.Bytes Common.Wire.

Record req := mkReq {
  r_method : list N;
  r_path : list N;                          (* uri().path() *)
  r_hdrs : list (list N * list N);           (* (lower-cased name, value), in order of appearance *)
  r_ext : bool                               (* the request carries hyper's OnUpgrade extension *)
}.
Record gcfg := mkCfg { g_psk : option (list N); g_obfs : bool }.

Inductive resp := RHealth | RVersion | RSwitch (key : list N) | RFallback.

Fixpoint beq (a b : list N) : bool :=
  match a, b with
  | [], [] => true
  | x :: a', y :: b' => (x =? y) && beq a' b'
  | _, _ => false
  end.

(* HeaderMap::get: the first value of that name *)
Fixpoint hget (h : list (list N * list N)) (name : list N) : option (list N) :=
  match h with
  | [] => None
  | (k, v) :: r => if beq k name then Some v else hget r name
  end.

Definition lower (b : N) : N := if (65 <=? b) && (b <=? 90) then b + 32 else b.
(* eq_ignore_ascii_case *)
Definition eq_ic (a b : list N) : bool := beq (map lower a) (map lower b).
(* header_matches!: present and equal ignoring ASCII case *)
Definition hmatch (v : option (list N)) (wanted : list N) : bool :=
  match v with Some x => eq_ic x wanted | None => false end.

Definition s_GET := [71; 69; 84].
Definition s_ws := [47; 119; 115].
Definition s_health := [47; 104; 101; 97; 108; 116; 104].
Definition s_version := [47; 118; 101; 114; 115; 105; 111; 110].
Definition h_connection := [99; 111; 110; 110; 101; 99; 116; 105; 111; 110].
Definition h_upgrade := [117; 112; 103; 114; 97; 100; 101].
Definition h_key := [115; 101; 99; 45; 119; 101; 98; 115; 111; 99; 107; 101; 116; 45; 107; 101; 121].
Definition h_proto := [115; 101; 99; 45; 119; 101; 98; 115; 111; 99; 107; 101; 116; 45; 112; 114; 111; 116; 111; 99; 111; 108].
Definition h_wsver := [115; 101; 99; 45; 119; 101; 98; 115; 111; 99; 107; 101; 116; 45; 118; 101; 114; 115; 105; 111; 110].
Definition h_psk := [120; 45; 112; 101; 110; 103; 117; 105; 110; 45; 112; 115; 107].
Definition v_upgrade := [117; 112; 103; 114; 97; 100; 101].
Definition v_websocket := [119; 101; 98; 115; 111; 99; 107; 101; 116].
Definition v_13 := [49; 51].
Definition v_proto := [112; 101; 110; 103; 117; 105; 110; 45; 118; 55].

Definition opt_beq (a b : option (list N)) : bool :=
  match a, b with Some x, Some y => beq x y | None, None => true | _, _ => false end.

(* ws_handler: the ordered checks, each falling back to the ordinary handler *)
Definition ws_handler (c : gcfg) (r : req) : resp :=
  if negb (beq (r_method r) s_GET) then RFallback
  else if (match g_psk c with Some _ => true | None => false end) &&
          negb (opt_beq (hget (r_hdrs r) h_psk) (g_psk c)) then RFallback
  else match hget (r_hdrs r) h_key with
       | None => RFallback
       | Some key =>
           if negb (hmatch (hget (r_hdrs r) h_connection) v_upgrade)
              || negb (hmatch (hget (r_hdrs r) h_upgrade) v_websocket)
              || negb (hmatch (hget (r_hdrs r) h_wsver) v_13)
              || negb (hmatch (hget (r_hdrs r) h_proto) v_proto) then RFallback
           else if negb (r_ext r) then RFallback
           else RSwitch key
       end.

(* Service::call *)
Definition respond (c : gcfg) (r : req) : resp :=
  if beq (r_path r) s_health && negb (g_obfs c) then RHealth
  else if beq (r_path r) s_version && negb (g_obfs c) then RVersion
  else if beq (r_path r) s_ws then ws_handler c r
  else RFallback.

(* ---- correspondence glue ---- *)
Fixpoint parse_hdrs (n : nat) (l : list N) : option (list (list N * list N) * list N) :=
  match n with
  | O => Some ([], l)
  | S m =>
      match parse_lp l with
      | Some (k, r) =>
          match parse_lp r with
          | Some (v, r') =>
              match parse_hdrs m r' with Some (hs, r'') => Some ((map lower k, v) :: hs, r'') | None => None end
          | None => None
          end
      | None => None
      end
  end.

(* uri().path(): the request target up to the query *)
Fixpoint strip_query (l : list N) : list N :=
  match l with [] => [] | b :: r => if b =? 63 then [] else b :: strip_query r end.

(* case: has_psk lp(psk) obfs ext lp(method) lp(request target) nhdr (lp name, lp value)* *)
Definition run_gate (c : list N) : list N :=
  match c with
  | has_psk :: r0 =>
      match parse_lp r0 with
      | Some (psk, obfs :: ext :: r1) =>
          match parse_lp r1 with
          | Some (m, r2) =>
              match parse_lp r2 with
              | Some (p, n :: r3) =>
                  match parse_hdrs (N.to_nat n) r3 with
                  | Some (hs, []) =>
                      match respond (mkCfg (if has_psk =? 0 then None else Some psk) (negb (obfs =? 0)))
                                    (mkReq m (strip_query p) hs (negb (ext =? 0))) with
                      | RHealth => [0]
                      | RVersion => [1]
                      | RSwitch _ => [2; 1; 1]
                      | RFallback => [3; 1]
                      end
                  | _ => MALFORMED
                  end
              | _ => MALFORMED
              end
          | None => MALFORMED
          end
      | _ => MALFORMED
      end
  | _ => MALFORMED
  end.
